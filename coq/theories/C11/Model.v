(** * C11 — generated [__repr__] / [__str__]: executable model.

    Mirrors [attr/_make.py] [_make_repr_script] (the generated source, fragment by
    fragment), [_ClassBuilder.add_str], [attr/_compat.py] [repr_context =
    threading.local()], and CPython's [list]/[dict] [tp_repr] with their own
    per-thread re-entrancy guard ([Py_ReprEnter]/[Py_ReprLeave]).

    Three layers, all computable:
    - [repr_val]: big-step interpreter with explicit fuel (recursion on fuel only);
    - [ref_val]: the reference, a pure function in which the sets of objects being
      rendered are *parameters passed down the recursion* (no mutable state at all);
    - [step]/[wstep]: a small-step stack machine and a scheduler interleaving any
      number of threads over a store keyed by [key tid].

    Definitions only; proofs are in [C11/Proofs.v], [C11/Threads.v]. *)

From Coq Require Import List Bool Arith String Ascii.
Import ListNotations.
Open Scope string_scope.
Open Scope list_scope.

Infix "^^" := String.append (at level 60, right associativity).

Notation oid := nat (only parsing).

(** ** Classes, fields, heap *)

(** [attr.ib(repr=...)]: [True], [False], or a callable.  Two kinds of callables:
    a leaf returning a fixed string whatever it is given, and a re-entrant one
    that calls [repr(value)] itself and wraps the result as [tok(<inner>)]. *)
Inductive rmode := RTrue | RFalse | RLeaf (tok : string) | RWrap (tok : string).

Record field := FT {
  f_name : string;
  f_repr : rmode;
  f_init : bool;
  f_truthy : bool   (* [bool(a.repr)] of the object passed as [repr=]: a callable object may be falsy
                       (empty callable dict subclass, [__bool__] returning False).  The generated code
                       tests [a.repr is not False], never truthiness: nothing below reads this field. *)
}.

(** A field whose [repr=] object is truthy (True, every function / lambda / class). *)
Definition F (n : string) (r : rmode) (i : bool) : field := FT n r i true.

Inductive obj :=
| OI (qualname : string)             (* type(self).__qualname__ : the RUNTIME class *)
     (str_flag : bool)               (* attr.s(str=True) *)
     (base_str : option string)      (* a base class defines __str__ returning this *)
     (fs : list field)               (* __attrs_attrs__, in order *)
     (attrs : list (string * oid))   (* attributes that are currently set *)
| OL (items : list oid)
| OT (items : list oid)              (* tuple: "(a, b)", "(a,)"; same Py_Repr guard, marker "(...)" *)
| OD (items : list (oid * oid))
| OS (r : string).                   (* scalar with a fixed repr string *)

Definition heap := list obj.

(** ** [qualname.rsplit(">.", 1)[-1]] *)

Definition after_dot (s : string) : option string :=
  match s with String "."%char r => Some r | _ => None end.

(** [Some t] iff [">."] occurs in [s]; then [t] is what follows its LAST occurrence. *)
Fixpoint rsplit_tail (s : string) : option string :=
  match s with
  | EmptyString => None
  | String c r =>
      match rsplit_tail r with
      | Some t => Some t
      | None => if Ascii.eqb c ">"%char then after_dot r else None
      end
  end.

Definition qualtail (s : string) : string :=
  match rsplit_tail s with Some t => t | None => s end.

(** ** [_make_repr_script]: the generated source as a list of f-string pieces *)

Inductive how := HRepr | HLeaf (tok : string) | HWrap (tok : string).

(** [attr_names_with_reprs]: (name, formatter, init) for every [a.repr is not False]. *)
Fixpoint attr_names_with_reprs (fs : list field) : list (string * how * bool) :=
  match fs with
  | [] => []
  | f :: r =>
      match f_repr f with
      | RFalse => attr_names_with_reprs r
      | RTrue => (f_name f, HRepr, f_init f) :: attr_names_with_reprs r
      | RLeaf t => (f_name f, HLeaf t, f_init f) :: attr_names_with_reprs r
      | RWrap t => (f_name f, HWrap t, f_init f) :: attr_names_with_reprs r
      end
  end.

Inductive spiece :=
| SQual                                         (* {self.__class__.__qualname__.rsplit(">.", 1)[-1]} *)
| SLit (s : string)
| SAttr (name : string) (init : bool) (w : how).  (* {self.n!r} / {n_repr(self.n)} / getattr(self,"n",NOTHING) *)

(** [", ".join("name={...}")] *)
Fixpoint fragments (l : list (string * how * bool)) (first : bool) : list spiece :=
  match l with
  | [] => []
  | (n, w, i) :: r =>
      SLit ((if first then "" else ", ") ^^ n ^^ "=") :: SAttr n i w :: fragments r false
  end.

Definition make_repr_script (fs : list field) : list spiece :=
  SQual :: SLit "(" :: fragments (attr_names_with_reprs fs) true ++ [SLit ")"].

(** ** Run-time values and sequences of parts *)

Inductive value := VRef (o : oid) | VNothing.      (* [NOTHING] : repr "NOTHING" *)

Inductive exc := EAttr | EUser | EKey | EBad.
(* AttributeError (unset init field) | the marked exception raised by a faulty repr
   callable | KeyError from [already_repring.remove] | dangling reference (ill-formed case) *)

Inductive res := Ok (s : string) | Raise (e : exc) | OutOfFuel.

Inductive part := PLit (s : string) | PVal (v : value) (w : how) | PFail.

Fixpoint assoc (n : string) (l : list (string * oid)) : option oid :=
  match l with
  | [] => None
  | (k, v) :: r => if String.eqb k n then Some v else assoc n r
  end.

(** [self.n] raises AttributeError when unset; [getattr(self, "n", NOTHING)] does not. *)
Definition accessor (attrs : list (string * oid)) (n : string) (init : bool) (w : how) : part :=
  match assoc n attrs with
  | Some v => PVal (VRef v) w
  | None => if init then PFail else PVal VNothing w
  end.

Fixpoint instantiate (sc : list spiece) (qn : string) (attrs : list (string * oid)) : list part :=
  match sc with
  | [] => []
  | SQual :: r => PLit (qualtail qn) :: instantiate r qn attrs
  | SLit s :: r => PLit s :: instantiate r qn attrs
  | SAttr n i w :: r => accessor attrs n i w :: instantiate r qn attrs
  end.

(** list_repr: "[" + ", ".join(repr(x)) + "]" *)
Fixpoint list_parts (items : list oid) (first : bool) : list part :=
  match items with
  | [] => []
  | x :: r => PLit (if first then "" else ", ") :: PVal (VRef x) HRepr :: list_parts r false
  end.

(** dict_repr: "{" + ", ".join(repr(k) + ": " + repr(v)) + "}" *)
Fixpoint dict_parts (items : list (oid * oid)) (first : bool) : list part :=
  match items with
  | [] => []
  | (k, v) :: r =>
      PLit (if first then "" else ", ") :: PVal (VRef k) HRepr :: PLit ": " :: PVal (VRef v) HRepr
        :: dict_parts r false
  end.

(** Which re-entrancy guard protects the object: attrs' thread-local set of ids or
    CPython's per-thread Py_Repr list. *)
Inductive guard := GInst | GCont.

Inductive compiled :=
| CScalar (s : string)
| CSeq (g : guard) (marker : string) (ps : list part).

Definition compile (h : heap) (o : oid) : option compiled :=
  match nth_error h o with
  | None => None
  | Some (OS s) => Some (CScalar s)
  | Some (OL items) => Some (CSeq GCont "[...]" (PLit "[" :: list_parts items true ++ [PLit "]"]))
  | Some (OT items) =>
      Some (CSeq GCont "(...)" (PLit "(" :: list_parts items true
                                  ++ [PLit (match items with [_] => ",)" | _ => ")" end)]))
  | Some (OD items) => Some (CSeq GCont "{...}" (PLit "{" :: dict_parts items true ++ [PLit "}"]))
  | Some (OI qn _ _ fs attrs) =>
      Some (CSeq GInst "..." (instantiate (make_repr_script fs) qn attrs))
  end.

(** ** Per-thread state *)

Record tstate := T {
  ar : option (list oid);   (* repr_context.already_repring: absent / the set *)
  pr : list oid;            (* CPython's Py_Repr list of this thread *)
  faults : list bool        (* fault oracle: one entry per call of a custom repr callable *)
}.

Definition aset (st : tstate) : list oid := match ar st with None => [] | Some s => s end.

Definition clean (fl : list bool) : tstate := T None [] fl.

Fixpoint mem (o : oid) (l : list oid) : bool :=
  match l with [] => false | x :: r => Nat.eqb x o || mem o r end.

Fixpoint remove_one (o : oid) (l : list oid) : list oid :=
  match l with [] => [] | x :: r => if Nat.eqb x o then r else x :: remove_one o r end.

(** The prologue of the generated [__repr__] / [Py_ReprEnter]:
    [None] = "already being rendered": return the marker. *)
Definition enter (g : guard) (o : oid) (st : tstate) : option tstate :=
  match g with
  | GInst =>
      match ar st with
      | None => Some (T (Some [o]) (pr st) (faults st))          (* except AttributeError: *)
      | Some s => if mem o s then None                             (* return '...' *)
                  else Some (T (Some (o :: s)) (pr st) (faults st)) (* already_repring.add *)
      end
  | GCont => if mem o (pr st) then None else Some (T (ar st) (o :: pr st) (faults st))
  end.

(** [finally: already_repring.remove(id(self))] (KeyError when absent; it would
    replace whatever was propagating) / [Py_ReprLeave] (silent when absent). *)
Definition leave (g : guard) (o : oid) (r : res) (st : tstate) : res * tstate :=
  match g with
  | GInst =>
      match ar st with
      | Some s => if mem o s then (r, T (Some (remove_one o s)) (pr st) (faults st))
                  else (Raise EKey, st)
      | None => (Raise EKey, st)
      end
  | GCont => (r, T (ar st) (remove_one o (pr st)) (faults st))
  end.

Definition pop_fault (st : tstate) : bool * tstate :=
  match faults st with
  | [] => (false, st)
  | b :: fl => (b, T (ar st) (pr st) fl)
  end.

Definition wrap (tok : string) (r : res) : res :=
  match r with Ok s => Ok (tok ^^ "(" ^^ s ^^ ")") | e => e end.

(** ** Big-step interpreter (open recursion: [rec] is [repr()] one level down) *)

Section BigStep.
  Variable h : heap.
  Variable rec : value -> tstate -> res * tstate.

  Definition render (w : how) (v : value) (st : tstate) : res * tstate :=
    match w with
    | HRepr => rec v st
    | HLeaf tok =>
        let '(f, st1) := pop_fault st in
        if f then (Raise EUser, st1) else (Ok tok, st1)
    | HWrap tok =>
        let '(f, st1) := pop_fault st in
        if f then (Raise EUser, st1)
        else let '(r, st2) := rec v st1 in (wrap tok r, st2)
    end.

  (** Evaluation of the f-string, left to right; the first failure propagates. *)
  Fixpoint run_parts (ps : list part) (acc : string) (st : tstate) : res * tstate :=
    match ps with
    | [] => (Ok acc, st)
    | PLit s :: r => run_parts r (acc ^^ s) st
    | PFail :: _ => (Raise EAttr, st)
    | PVal v w :: r =>
        let '(x, st1) := render w v st in
        match x with
        | Ok s => run_parts r (acc ^^ s) st1
        | e => (e, st1)
        end
    end.

  Definition repr_obj (o : oid) (st : tstate) : res * tstate :=
    match compile h o with
    | None => (Raise EBad, st)
    | Some (CScalar s) => (Ok s, st)
    | Some (CSeq g marker ps) =>
        match enter g o st with
        | None => (Ok marker, st)
        | Some st1 =>
            let '(r, st2) := run_parts ps "" st1 in    (* try: *)
            leave g o r st2                              (* finally: *)
        end
    end.

  Definition repr_body (v : value) (st : tstate) : res * tstate :=
    match v with
    | VNothing => (Ok "NOTHING", st)
    | VRef o => repr_obj o st
    end.
End BigStep.

Fixpoint repr_val (h : heap) (fuel : nat) (v : value) (st : tstate) : res * tstate :=
  match fuel with
  | 0 => (OutOfFuel, st)
  | S n => repr_body h (repr_val h n) v st
  end.

(** The fuel that [repr_terminates] proves sufficient for every heap and state. *)
Definition fuel_for (h : heap) : nat := 2 * List.length h + 1.

Definition repr (h : heap) (v : value) (st : tstate) : res * tstate :=
  repr_val h (fuel_for h) v st.

(** [str(x)]: the generated [__str__] is [return self.__repr__()]; without
    [str=True] an inherited [__str__] wins, and [object.__str__] calls [repr]. *)
Definition str (h : heap) (o : oid) (st : tstate) : res * tstate :=
  match nth_error h o with
  | Some (OI _ false (Some s) _ _) => (Ok s, st)
  | _ => repr h (VRef o) st
  end.

(** ** Reference semantics: the active sets are parameters, nothing is mutated.
    Only the fault oracle (the sequence of callable calls) is threaded. *)

Section Ref.
  Variable h : heap.
  Variable rec : list oid -> list oid -> value -> list bool -> res * list bool.

  Definition ref_render (A P : list oid) (w : how) (v : value) (fl : list bool) : res * list bool :=
    match w with
    | HRepr => rec A P v fl
    | HLeaf tok =>
        match fl with
        | true :: fl' => (Raise EUser, fl')
        | false :: fl' => (Ok tok, fl')
        | [] => (Ok tok, [])
        end
    | HWrap tok =>
        match fl with
        | true :: fl' => (Raise EUser, fl')
        | false :: fl' => let '(r, fl2) := rec A P v fl' in (wrap tok r, fl2)
        | [] => let '(r, fl2) := rec A P v [] in (wrap tok r, fl2)
        end
    end.

  Fixpoint ref_parts (A P : list oid) (ps : list part) (acc : string) (fl : list bool)
    : res * list bool :=
    match ps with
    | [] => (Ok acc, fl)
    | PLit s :: r => ref_parts A P r (acc ^^ s) fl
    | PFail :: _ => (Raise EAttr, fl)
    | PVal v w :: r =>
        let '(x, fl1) := ref_render A P w v fl in
        match x with
        | Ok s => ref_parts A P r (acc ^^ s) fl1
        | e => (e, fl1)
        end
    end.

  Definition ref_body (A P : list oid) (v : value) (fl : list bool) : res * list bool :=
    match v with
    | VNothing => (Ok "NOTHING", fl)
    | VRef o =>
        match compile h o with
        | None => (Raise EBad, fl)
        | Some (CScalar s) => (Ok s, fl)
        | Some (CSeq GInst marker ps) =>
            if mem o A then (Ok marker, fl) else ref_parts (o :: A) P ps "" fl
        | Some (CSeq GCont marker ps) =>
            if mem o P then (Ok marker, fl) else ref_parts A (o :: P) ps "" fl
        end
    end.
End Ref.

Fixpoint ref_val (h : heap) (fuel : nat) (A P : list oid) (v : value) (fl : list bool)
  : res * list bool :=
  match fuel with
  | 0 => (OutOfFuel, fl)
  | S n => ref_body h (ref_val h n) A P v fl
  end.

(** ** Small-step stack machine *)

Inductive ctrl := CEval (v : value) | CRet (r : res).

Inductive frame :=
| FSeq (g : guard) (o : oid) (acc : string) (todo : list part)   (* inside the f-string / list_repr of o *)
| FWrap (tok : string).                                           (* inside a re-entrant repr callable *)

Record conf := Cf { c_ctrl : ctrl; c_stack : list frame; c_st : tstate }.

(** Advance through the literal pieces up to the next call, or finish the object. *)
Fixpoint continue_parts (g : guard) (o : oid) (acc : string) (ps : list part)
         (K : list frame) (st : tstate) : conf :=
  match ps with
  | [] => let '(r, st') := leave g o (Ok acc) st in Cf (CRet r) K st'
  | PLit s :: r => continue_parts g o (acc ^^ s) r K st
  | PFail :: _ => let '(r, st') := leave g o (Raise EAttr) st in Cf (CRet r) K st'
  | PVal v w :: r =>
      let K' := FSeq g o acc r :: K in
      match w with
      | HRepr => Cf (CEval v) K' st
      | HLeaf tok =>
          let '(f, st1) := pop_fault st in
          Cf (CRet (if f then Raise EUser else Ok tok)) K' st1
      | HWrap tok =>
          let '(f, st1) := pop_fault st in
          if f then Cf (CRet (Raise EUser)) K' st1 else Cf (CEval v) (FWrap tok :: K') st1
      end
  end.

Definition step (h : heap) (c : conf) : option conf :=
  match c_ctrl c, c_stack c with
  | CEval VNothing, K => Some (Cf (CRet (Ok "NOTHING")) K (c_st c))
  | CEval (VRef o), K =>
      Some match compile h o with
           | None => Cf (CRet (Raise EBad)) K (c_st c)
           | Some (CScalar s) => Cf (CRet (Ok s)) K (c_st c)
           | Some (CSeq g marker ps) =>
               match enter g o (c_st c) with
               | None => Cf (CRet (Ok marker)) K (c_st c)
               | Some st1 => continue_parts g o "" ps K st1
               end
           end
  | CRet _, [] => None
  | CRet r, FWrap tok :: K => Some (Cf (CRet (wrap tok r)) K (c_st c))
  | CRet (Ok s), FSeq g o acc ps :: K => Some (continue_parts g o (acc ^^ s) ps K (c_st c))
  | CRet e, FSeq g o acc ps :: K =>
      Some (let '(r, st') := leave g o e (c_st c) in Cf (CRet r) K st')
  end.

Definition step_or_stay (h : heap) (c : conf) : conf :=
  match step h c with Some c' => c' | None => c end.

Fixpoint iter {A : Type} (n : nat) (f : A -> A) (x : A) : A :=
  match n with 0 => x | S m => iter m f (f x) end.

Definition halted (c : conf) : option (res * tstate) :=
  match c_ctrl c, c_stack c with
  | CRet r, [] => Some (r, c_st c)
  | _, _ => None
  end.

(** ** Threads

    [threading.local()] is a store keyed by the running thread.  The model keeps the
    key function explicit: [key t = t] is [threading.local()]; a constant [key] is
    what one gets when [repr_context] is a plain object shared by all threads.  The
    Py_Repr list and the fault oracle belong to the thread itself. *)

Record thread := Th { th_ctrl : ctrl; th_stack : list frame; th_pr : list oid; th_faults : list bool }.

Record world := W { w_thr : nat -> thread; w_ar : nat -> option (list oid) }.

Definition upd {A : Type} (f : nat -> A) (k : nat) (x : A) : nat -> A :=
  fun k' => if Nat.eqb k' k then x else f k'.

(** What thread [t] sees. *)
Definition view (key : nat -> nat) (w : world) (t : nat) : conf :=
  let th := w_thr w t in
  Cf (th_ctrl th) (th_stack th) (T (w_ar w (key t)) (th_pr th) (th_faults th)).

(** One step of thread [t]: reads and writes the store only at [key t]. *)
Definition wstep (key : nat -> nat) (h : heap) (w : world) (t : nat) : world :=
  match step h (view key w t) with
  | None => w
  | Some c =>
      W (upd (w_thr w) t (Th (c_ctrl c) (c_stack c) (pr (c_st c)) (faults (c_st c))))
        (upd (w_ar w) (key t) (ar (c_st c)))
  end.

Fixpoint run_sched (key : nat -> nat) (h : heap) (sched : list nat) (w : world) : world :=
  match sched with
  | [] => w
  | t :: r => run_sched key h r (wstep key h w t)
  end.

(** All threads about to call [repr(v)], nothing set anywhere. *)
Definition start_world (v : nat -> value) (fl : nat -> list bool) : world :=
  W (fun t => Th (CEval (v t)) [] [] (fl t)) (fun _ => None).

Definition id_key (t : nat) : nat := t.
Definition shared_key (_ : nat) : nat := 0.

(** ** The specification strings *)

Fixpoint join (sep : string) (l : list string) : string :=
  match l with
  | [] => ""
  | [x] => x
  | x :: r => x ^^ sep ^^ join sep r
  end.

Definition enabled (f : field) : bool :=
  match f_repr f with RFalse => false | _ => true end.

Definition how_of (f : field) : how :=
  match f_repr f with RLeaf t => HLeaf t | RWrap t => HWrap t | _ => HRepr end.

(** The value a field fragment formats: the attribute, or NOTHING for an unset
    [init=False] field; [None]: unset [init=True] field (AttributeError). *)
Definition field_value (attrs : list (string * oid)) (f : field) : option value :=
  match assoc (f_name f) attrs with
  | Some v => Some (VRef v)
  | None => if f_init f then None else Some VNothing
  end.

Fixpoint name_eq (fs : list field) (rs : list string) : list string :=
  match fs, rs with
  | f :: fs', r :: rs' => (f_name f ^^ "=" ^^ r) :: name_eq fs' rs'
  | _, _ => []
  end.

(** QualName(f1=r1, f2=r2, ...) *)
Definition format_spec (qn : string) (fs : list field) (rs : list string) : string :=
  qualtail qn ^^ "(" ^^ join ", " (name_eq (filter enabled fs) rs) ^^ ")".
