(** * C11 — the small-step machine computes the big-step result, and threads
    scheduled in any interleaving over a store keyed per thread do not interfere. *)

From Coq Require Import List Bool Arith String Ascii Lia.
Import ListNotations.
From Attrs Require Import C11.Model C11.Proofs.
Open Scope string_scope.
Open Scope list_scope.

(** ** iteration *)

Lemma iter_add {A} (f : A -> A) a b x : iter (a + b) f x = iter b f (iter a f x).
Proof. revert x. induction a as [|a IH]; intros x; cbn; [reflexivity | apply IH]. Qed.

Lemma iter_fix {A} (f : A -> A) x : f x = x -> forall n, iter n f x = x.
Proof. intros H n. induction n as [|n IH]; cbn; [reflexivity | now rewrite H]. Qed.

Lemma halted_stays h c x : halted c = Some x -> step_or_stay h c = c.
Proof.
  unfold halted, step_or_stay, step. destruct c as [[v|r] [|f K] st]; cbn; try discriminate.
  intros _. destruct r; reflexivity.
Qed.

(** ** The machine reaches the big-step result *)

Section Machine.
  Variable h : heap.
  Variable rec : value -> tstate -> res * tstate.
  Hypothesis Hmach : forall v st r st', rec v st = (r, st') -> r <> OutOfFuel ->
    forall K, exists k, iter k (step_or_stay h) (Cf (CEval v) K st) = Cf (CRet r) K st'.

  Lemma step_ret_ok g o acc ps K s st :
    step_or_stay h (Cf (CRet (Ok s)) (FSeq g o acc ps :: K) st) = continue_parts g o (acc ^^ s) ps K st.
  Proof. reflexivity. Qed.

  Lemma parts_machine g o ps : forall acc st r2 st2,
    run_parts rec ps acc st = (r2, st2) -> r2 <> OutOfFuel ->
    forall K, exists k,
      iter k (step_or_stay h) (continue_parts g o acc ps K st)
      = Cf (CRet (fst (leave g o r2 st2))) K (snd (leave g o r2 st2)).
  Proof.
    induction ps as [|p ps IH]; intros acc st r2 st2; cbn [run_parts continue_parts].
    - intros H _ K. inversion H; subst. exists 0. cbn. now destruct (leave g o (Ok acc) st2).
    - destruct p as [s|v w|].
      + apply IH.
      + unfold render. destruct w as [|tok|tok].
        * destruct (rec v st) as [x st1] eqn:E. intros H Hn K.
          assert (Hx : x <> OutOfFuel) by (intros ->; inversion H; subst; now apply Hn).
          destruct (Hmach _ _ _ _ E Hx (FSeq g o acc ps :: K)) as [k1 Hk1].
          destruct x as [s|e|]; [| |congruence].
          -- destruct (IH _ _ _ _ H Hn K) as [k2 Hk2]. exists (k1 + (1 + k2)).
             rewrite iter_add, Hk1. cbn [iter plus]. rewrite step_ret_ok. exact Hk2.
          -- inversion H; subst. exists (k1 + 1). rewrite iter_add, Hk1. cbn.
             now destruct (leave g o (Raise e) st2).
        * destruct (pop_fault st) as [f st1]. destruct f.
          -- intros H _ K. inversion H; subst. exists 1. cbn.
             now destruct (leave g o (Raise EUser) st2).
          -- intros H Hn K. destruct (IH _ _ _ _ H Hn K) as [k2 Hk2]. exists (1 + k2).
             cbn [iter plus]. rewrite step_ret_ok. exact Hk2.
        * destruct (pop_fault st) as [f st1]. destruct f.
          -- intros H _ K. inversion H; subst. exists 1. cbn.
             now destruct (leave g o (Raise EUser) st2).
          -- destruct (rec v st1) as [x st1'] eqn:E. intros H Hn K.
             assert (Hx : x <> OutOfFuel) by (intros ->; cbn in H; inversion H; subst; now apply Hn).
             destruct (Hmach _ _ _ _ E Hx (FWrap tok :: FSeq g o acc ps :: K)) as [k1 Hk1].
             destruct x as [s|e|]; [| |congruence]; cbn [wrap] in H.
             ++ destruct (IH _ _ _ _ H Hn K) as [k2 Hk2]. exists (k1 + (1 + (1 + k2))).
                rewrite iter_add, Hk1. cbn [iter plus].
                change (step_or_stay h (Cf (CRet (Ok s)) (FWrap tok :: FSeq g o acc ps :: K) st1'))
                  with (Cf (CRet (Ok (tok ^^ "(" ^^ s ^^ ")"))) (FSeq g o acc ps :: K) st1').
                rewrite step_ret_ok. exact Hk2.
             ++ inversion H; subst. exists (k1 + 2). rewrite iter_add, Hk1. cbn.
                now destruct (leave g o (Raise e) st2).
      + intros H _ K. inversion H; subst. exists 0. cbn. now destruct (leave g o (Raise EAttr) st2).
  Qed.
End Machine.

Lemma machine_reaches h : forall n v st r st',
  repr_val h n v st = (r, st') -> r <> OutOfFuel ->
  forall K, exists k, iter k (step_or_stay h) (Cf (CEval v) K st) = Cf (CRet r) K st'.
Proof.
  induction n as [|n IH]; intros v st r st' H Hn K.
  - cbn in H. inversion H; subst. exfalso; now apply Hn.
  - cbn in H. unfold repr_body, repr_obj in H. destruct v as [o|].
    2:{ inversion H; subst. exists 1. reflexivity. }
    destruct (compile h o) as [[s|g marker ps]|] eqn:Ec.
    + inversion H; subst. exists 1. cbn. unfold step_or_stay, step. cbn. now rewrite Ec.
    + destruct (enter g o st) as [st1|] eqn:He.
      * destruct (run_parts (repr_val h n) ps "" st1) as [x st2] eqn:Er.
        assert (Hx : x <> OutOfFuel).
        { intros ->. pose proof (run_parts_refines (repr_val h n) (ref_val h n) (repr_refines_l h n)
                                   ps "" st1 _ _ Er) as (_ & E2 & E3).
          destruct (leave_after_enter g o st st1 st2 OutOfFuel He E2 E3) as (st3 & Hl & _).
          rewrite Hl in H. inversion H; subst. now apply Hn. }
        destruct (parts_machine h (repr_val h n) IH g o ps "" st1 x st2 Er Hx K) as [k Hk].
        rewrite H in Hk. cbn [fst snd] in Hk. exists (1 + k). cbn [iter plus].
        unfold step_or_stay at 2. unfold step. cbn [c_ctrl c_stack c_st]. rewrite Ec, He. exact Hk.
      * inversion H; subst. exists 1. cbn. unfold step_or_stay, step. cbn. now rewrite Ec, He.
    + inversion H; subst. exists 1. cbn. unfold step_or_stay, step. cbn. now rewrite Ec.
Qed.

(** Running one thread alone: the machine halts with exactly [repr]'s answer. *)
Lemma solo_machine h v st :
  exists k, forall j, k <= j ->
    iter j (step_or_stay h) (Cf (CEval v) [] st)
    = Cf (CRet (fst (repr h v st))) [] (snd (repr h v st)).
Proof.
  destruct (repr h v st) as [r st'] eqn:E.
  pose proof (repr_terminates_l h v st) as Ht. rewrite E in Ht. cbn in Ht.
  destruct (machine_reaches h _ _ _ _ _ E Ht []) as [k Hk]. exists k. intros j Hj.
  replace j with (k + (j - k)) by lia. rewrite iter_add, Hk. cbn [fst snd].
  apply iter_fix. eapply halted_stays. reflexivity.
Qed.

(** ** Threads: non-interference *)

Fixpoint count (t : nat) (l : list nat) : nat :=
  match l with [] => 0 | x :: r => (if Nat.eqb x t then 1 else 0) + count t r end.

Section Isolation.
  Variable key : nat -> nat.
  Hypothesis key_inj : forall a b, key a = key b -> a = b.
  Variable h : heap.

  Lemma view_wstep_same w t : view key (wstep key h w t) t = step_or_stay h (view key w t).
  Proof.
    unfold wstep, step_or_stay. destruct (step h (view key w t)) as [c|] eqn:E; [|reflexivity].
    unfold view. cbn. unfold upd. rewrite !Nat.eqb_refl. cbn.
    destruct c as [c K [a p f]]. reflexivity.
  Qed.

  Lemma view_wstep_other w t t' : t' <> t -> view key (wstep key h w t) t' = view key w t'.
  Proof.
    intros Hne. unfold wstep. destruct (step h (view key w t)) as [c|] eqn:E; [|reflexivity].
    unfold view. cbn. unfold upd.
    destruct (Nat.eqb t' t) eqn:E1; [apply Nat.eqb_eq in E1; contradiction|].
    destruct (Nat.eqb (key t') (key t)) eqn:E2; [|reflexivity].
    apply Nat.eqb_eq in E2. apply key_inj in E2. contradiction.
  Qed.

  (** Whatever the interleaving, thread [t] has made exactly its own steps. *)
  Lemma isolation_l : forall sched w t,
    view key (run_sched key h sched w) t = iter (count t sched) (step_or_stay h) (view key w t).
  Proof.
    induction sched as [|x sched IH]; intros w t; cbn [run_sched count]; [reflexivity|].
    rewrite IH. destruct (Nat.eqb x t) eqn:E.
    - apply Nat.eqb_eq in E. subst x. cbn [plus iter]. now rewrite view_wstep_same.
    - cbn [plus]. rewrite view_wstep_other; [reflexivity|].
      intros ->. rewrite Nat.eqb_refl in E. discriminate.
  Qed.
End Isolation.

Lemma view_start key v fl t :
  view key (start_world v fl) t = Cf (CEval (v t)) [] (clean (fl t)).
Proof. reflexivity. Qed.

(** A thread that has finished, under ANY schedule with ANY number of other threads,
    has produced exactly what it produces alone. *)
Lemma repr_thread_isolation_l h v fl sched t x :
  halted (view id_key (run_sched id_key h sched (start_world v fl)) t) = Some x ->
  x = repr h (v t) (clean (fl t)).
Proof.
  rewrite (isolation_l id_key (fun a b H => H) h), view_start.
  set (c0 := Cf (CEval (v t)) [] (clean (fl t))). set (m := count t sched).
  destruct (solo_machine h (v t) (clean (fl t))) as [k Hk]. fold c0 in Hk.
  intros Hh. destruct (le_lt_dec k m) as [Hkm|Hkm].
  - rewrite (Hk m Hkm) in Hh. unfold halted in Hh. cbn [c_ctrl c_stack c_st] in Hh.
    injection Hh as <-. symmetry. apply surjective_pairing.
  - pose proof (Hk k (le_n k)) as Hkk.
    replace k with (m + (k - m)) in Hkk by lia. rewrite iter_add in Hkk.
    rewrite (iter_fix _ _ (halted_stays h _ _ Hh)) in Hkk. rewrite Hkk in Hh.
    unfold halted in Hh. cbn [c_ctrl c_stack c_st] in Hh.
    injection Hh as <-. symmetry. apply surjective_pairing.
Qed.

(** And it does finish once it has been scheduled often enough. *)
Lemma repr_thread_progress_l h v fl t :
  exists k, forall sched, k <= count t sched ->
    halted (view id_key (run_sched id_key h sched (start_world v fl)) t)
    = Some (repr h (v t) (clean (fl t))).
Proof.
  destruct (solo_machine h (v t) (clean (fl t))) as [k Hk]. exists k. intros sched Hc.
  rewrite (isolation_l id_key (fun a b H => H) h), view_start, (Hk _ Hc).
  unfold halted. cbn [c_ctrl c_stack c_st]. f_equal. symmetry. apply surjective_pairing.
Qed.

(** Non-vacuity / necessity of the per-thread key: with ONE shared set (what a plain
    object instead of [threading.local()] gives) the second thread is told the
    instance is "already being rendered" and prints ["..."]. *)
Definition demo_heap : heap := [OI "C" false None [F "x" (RLeaf "t") true] [("x", 1)]; OS "1"].

Lemma shared_set_breaks_isolation :
  fst (repr demo_heap (VRef 0) (clean [])) = Ok "C(x=t)" /\
  exists sched,
    option_map fst (halted (view shared_key (run_sched shared_key demo_heap sched
                                               (start_world (fun _ => VRef 0) (fun _ => []))) 1))
    = Some (Ok "...").
Proof. split; [reflexivity|]. exists [0; 1]. reflexivity. Qed.

Example isolated_demo :
  forall sched x,
    halted (view id_key (run_sched id_key demo_heap sched
                           (start_world (fun _ => VRef 0) (fun _ => []))) 1) = Some x ->
    fst x = Ok "C(x=t)".
Proof. intros sched x H. apply repr_thread_isolation_l in H. subst x. reflexivity. Qed.
