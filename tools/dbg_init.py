import sys, json, re
sys.path.insert(0, "/verif")
from harness import vlib
import importlib
mod = importlib.import_module("harness." + sys.argv[1])
seed = int(sys.argv[2]); n = int(sys.argv[3]) if len(sys.argv) > 3 else 3
cs = mod.generate("quick", seed)
bad = vlib.run_cases(mod.PROP, mod.HEADER, mod.CASE_TYPE, mod.CHECK, [c.term for c in cs], shard=50)
print("cases", len(cs), "bad", len(bad))
for i in bad[:n]:
    c = cs[i]
    print("=" * 100); print(json.dumps(c.inp)[:1500])
    m = vlib.eval_in_coq(mod.PROP, mod.HEADER, "model_of (%s)" % c.term)
    print("MODEL:", m[:3000])
    print("REAL :", c.term[c.term.index("(Def"):][:3000] if "(Def" in c.term else c.term[-3000:])
