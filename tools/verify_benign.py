#!/usr/bin/env python3
"""usage: verify_benign.py <prop> <n> [--src /tmp/ben_out]
Confirms a behaviour-preserving change in a scratch worktree of /repo (outside /repo and /verif): the patch
applies, the pinned suite still passes, and the change's own transcript program prints the same text on the
clean and on the patched tree.  Stores it under /verif/benign/<prop>-<n>/ (patch.diff, equiv.py, README.md,
meta.json).  Which checks stay quiet on it is recorded by tools/benall.sh."""
import json, os, shutil, subprocess, sys, tempfile
prop, n = sys.argv[1], sys.argv[2]
src = sys.argv[sys.argv.index("--src") + 1] if "--src" in sys.argv else "/tmp/ben_out"
d = os.path.join(src, prop, n)
wt = tempfile.mkdtemp(prefix="vben_", dir="/tmp"); os.rmdir(wt)
def sh(cmd, **kw):
    return subprocess.run(cmd, shell=True, stdout=subprocess.PIPE, stderr=subprocess.STDOUT, text=True, **kw)
meta = {"property": prop, "source": "independent sub-agent asked for strictly behaviour-preserving refactorings", "ran": []}
ok = False
try:
    r = sh("git -C /repo worktree add -q --detach %s HEAD" % wt); assert r.returncode == 0, r.stdout
    env = "PYTHONPATH=%s/src PYTHONHASHSEED=0" % wt
    r1 = sh("cd %s && %s timeout 600 /venv/bin/python %s/equiv.py" % (wt, env, d)); meta["ran"].append(["equiv.py on clean tree", r1.returncode, len(r1.stdout)])
    r = sh("git -C %s apply %s/patch.diff" % (wt, d)); meta["ran"].append(["git apply", r.returncode, r.stdout[-300:]]); applied = r.returncode == 0
    r = sh("python3 /tmp/seedtools/run_tests.py %s" % wt); meta["ran"].append(["pinned suite with patch", r.stdout.strip().splitlines()[0] if r.stdout.strip() else ""]); tests_ok = r.returncode == 0
    r2 = sh("cd %s && %s timeout 600 /venv/bin/python %s/equiv.py" % (wt, env, d)); meta["ran"].append(["equiv.py with patch", r2.returncode, len(r2.stdout)])
    same = r1.returncode == 0 and r2.returncode == 0 and r1.stdout == r2.stdout
    meta["transcript_identical"] = same
    ok = applied and tests_ok and same
finally:
    sh("git -C /repo worktree remove --force %s" % wt); sh("git -C /repo worktree prune")
print(json.dumps(meta, indent=1)); print("CONFIRMED" if ok else "NOT CONFIRMED")
if not ok:
    sys.exit(1)
tag = sys.argv[sys.argv.index("--tag") + 1] if "--tag" in sys.argv else ""
out = "/verif/benign/%s-%s%s" % (prop, tag, n)
os.makedirs(out, exist_ok=True)
for f in ("patch.diff", "equiv.py", "README.md"):
    shutil.copy(os.path.join(d, f), out)
json.dump(meta, open(os.path.join(out, "meta.json"), "w"), indent=1)
print("stored", out)
