#!/bin/sh
# Stranger's audit: no admitted proofs / declared axioms / disabled kernel checks.
cd "$(dirname "$0")/../coq" || exit 2
if grep -rnE '\b(Admitted|admit|Axiom|Axioms|Parameter|Parameters|Conjecture|Admit Obligations|Unset Guard Checking|Unset Positivity Checking|Unset Universe Checking|bypass_check|type-in-type|impredicative-set)\b' --include='*.v' theories _CoqProject; then
  echo "AUDIT FAILED"; exit 1
fi
if grep -rnE '^\s*(Variable|Variables|Hypothesis|Hypotheses|Context)\b' --include='*.v' theories | while IFS=: read f l rest; do
  # allowed only inside a Section: crude check - the file must contain a Section before that line
  awk -v L="$l" 'NR<L && /^ *Section /{s++} NR<L && /^ *End /{s--} END{exit !(s>0)}' "$f" || echo "$f:$l outside section: $rest"
done | grep . ; then echo "AUDIT FAILED"; exit 1; fi
echo "audit ok"
