#!/usr/bin/env python3
"""usage: verify_seed.py <prop> <n> [--src /tmp/seed_out]
Confirms a seeded change in a scratch worktree of /repo (outside /repo and /verif):
demo passes on clean tree, patch applies, pinned suite still passes, demo fails with the patch;
runs ./check <prop> (quick) against a patched copy; on success stores it under /verif/seeded/<prop>-<n>/."""
import json, os, shutil, subprocess, sys, tempfile
prop, n = sys.argv[1], sys.argv[2]
src = sys.argv[sys.argv.index("--src") + 1] if "--src" in sys.argv else "/tmp/seed_out"
tag = sys.argv[sys.argv.index("--tag") + 1] if "--tag" in sys.argv else ""
d = os.path.join(src, prop, n)
wt = tempfile.mkdtemp(prefix="vseed_", dir="/tmp"); os.rmdir(wt)
def sh(cmd, **kw):
    return subprocess.run(cmd, shell=True, stdout=subprocess.PIPE, stderr=subprocess.STDOUT, text=True, **kw)
meta = {"property": prop, "source": "independent sub-agent given only the property text and a scratch worktree", "ran": []}
try:
    r = sh("git -C /repo worktree add -q --detach %s HEAD" % wt); assert r.returncode == 0, r.stdout
    env = "PYTHONPATH=%s/src" % wt
    r = sh("cd %s && %s /venv/bin/python %s/demo.py" % (wt, env, d)); meta["ran"].append(["demo on clean tree", r.returncode]); clean_ok = r.returncode == 0
    r = sh("git -C %s apply --3way %s/patch.diff 2>&1 || git -C %s apply %s/patch.diff" % (wt, d, wt, d)); meta["ran"].append(["git apply", r.returncode, r.stdout[-300:]]); applied = r.returncode == 0
    if applied:
        sh("git -C %s diff HEAD > %s/patch.rebased.diff" % (wt, d))
    r = sh("python3 /tmp/seedtools/run_tests.py %s" % wt); meta["ran"].append(["pinned suite with patch", r.stdout.strip().splitlines()[0] if r.stdout.strip() else ""]); tests_ok = r.returncode == 0
    r = sh("cd %s && %s /venv/bin/python %s/demo.py" % (wt, env, d)); meta["ran"].append(["demo with patch", r.returncode, r.stdout[-400:]]); demo_fails = r.returncode != 0
finally:
    sh("git -C /repo worktree remove --force %s" % wt); sh("git -C /repo worktree prune")
ok = clean_ok and applied and tests_ok and demo_fails
print(json.dumps(meta, indent=1)); print("CONFIRMED" if ok else "NOT CONFIRMED")
if not ok: sys.exit(1)
patch = os.path.join(d, "patch.rebased.diff")
r = sh("/verif/tools/seedtest.sh %s %s --tier quick" % (prop, patch))
tail = [l for l in r.stdout.splitlines() if l.strip()][-6:]
meta["check_quick"] = {"exit": r.returncode, "output_tail": tail}
meta["detected"] = r.returncode == 1 and any(l.startswith("VIOLATION property=%s" % prop) for l in r.stdout.splitlines())
meta["needs_to_manifest"] = open(os.path.join(d, "README.md")).read()[:1500]
out = "/verif/seeded/%s-%s%s" % (prop, tag, n)
os.makedirs(out, exist_ok=True)
shutil.copy(patch, os.path.join(out, "patch.diff")); shutil.copy(os.path.join(d, "demo.py"), out); shutil.copy(os.path.join(d, "README.md"), out)
json.dump(meta, open(os.path.join(out, "meta.json"), "w"), indent=1)
print("stored", out, "detected=", meta["detected"])
