#!/usr/bin/env python3
"""Run the repository's pinned baseline suite (command from /root/.vp/BASELINE.json) and
check that every test listed there as stable_pass still passes.  Exit 0 iff so."""
import json, os, subprocess, sys, tempfile
import xml.etree.ElementTree as ET

b = json.load(open("/root/.vp/BASELINE.json"))
with tempfile.TemporaryDirectory() as d:
    out = os.path.join(d, "junit.xml")
    cmd = b["cmd"].replace("<file>", out)
    env = dict(os.environ)
    for k in list(env):
        if k.startswith("ATTRS_VERIF"):
            del env[k]
    p = subprocess.run(cmd, shell=True, env=env, stdout=subprocess.PIPE, stderr=subprocess.STDOUT, text=True)
    passed = set()
    for tc in ET.parse(out).getroot().iter("testcase"):
        if not any(c.tag in ("failure", "error", "skipped") for c in tc):
            passed.add(tc.get("classname") + "::" + tc.get("name"))
want = set(b["stable_pass"])
missing = sorted(want - passed)
print("stable_pass=%d passed_now=%d missing=%d" % (len(want), len(passed & want), len(missing)))
for m in missing[:20]:
    print("  NOT PASSING:", m)
sys.exit(1 if missing else 0)
