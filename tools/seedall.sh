#!/bin/sh
# usage: seedall.sh [jobs]   - run every stored seed through the check of its property (tools/seedtest.sh), in parallel;
# prints one line per seed: <seed> <check> exit=<rc> tie=<broken|ok|unavailable|n/a>; summary of misses at the end.
J="${1:-6}"
OUT=$(mktemp -d /tmp/seedall.XXXXXX)
ls -d /verif/seeded/*/ | sed 's#/$##' | xargs -P "$J" -I{} sh -c '
  d="{}"; OUT="'"$OUT"'"
  s=$(basename "$d"); p=$(python3 -c "import json,sys; print(json.load(open(sys.argv[1]))[\"property\"])" "$d/meta.json")
  VERIF_JOBS=4 /verif/tools/seedtest.sh "$p" "$d/patch.diff" > "$OUT/$s.log" 2>&1; rc=$?; used="$p"
  if [ "$rc" = 0 ]; then
    o=$(python3 -c "import json,sys,re; m=json.load(open(sys.argv[1])); b=m.get(\"detected_by\") or \"\"; r=re.findall(r\"check (C\\d\\d)\", b); print(r[0] if r else \"\")" "$d/meta.json")
    if [ -n "$o" ] && [ "$o" != "$p" ]; then
      VERIF_JOBS=4 /verif/tools/seedtest.sh "$o" "$d/patch.diff" > "$OUT/$s.$o.log" 2>&1; rc=$?; used="$o"; cat "$OUT/$s.$o.log" >> "$OUT/$s.log"
    fi
  fi
  tie="-"; grep -q "PROOF OBLIGATION FAILED" "$OUT/$s.log" && tie="proof-obligation-failed"
  echo "$s $used exit=$rc $tie"
' | tee "$OUT/summary.txt"
echo "logs in $OUT"
echo "NOT CAUGHT:"; grep -v "exit=1" "$OUT/summary.txt" || echo "  none"
