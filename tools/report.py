#!/usr/bin/env python3
"""Regenerates the machine-written tables of DESIGN.md (between the BEGIN/END GENERATED markers) from
MANIFEST.json, evidence/*.json, seeded/*/meta.json, known_findings*.json and /repo's fix commits."""
import glob
import json
import os
import re
import subprocess

HERE = os.path.dirname(os.path.dirname(os.path.abspath(__file__)))


def load(p):
    with open(p) as fh:
        return json.load(fh)


def props():
    return [json.loads(l) for l in open(os.path.join(HERE, "properties.jsonl"))]


def table_checks():
    man = load(os.path.join(HERE, "MANIFEST.json"))
    claimed = {c["property_id"]: c for c in man["checks"]}
    rows = ["| id | title | theorems | Print Assumptions | cases (last run, tier) | wall s | known findings seen |",
            "|---|---|---|---|---|---|---|"]
    for p in props():
        pid = p["id"]
        if pid not in claimed:
            rows.append("| %s | %s | not claimed | | | | |" % (pid, p["title"].replace("|", "/")))
            continue
        evp = os.path.join(HERE, "evidence", pid + ".json")
        if not os.path.exists(evp):
            rows.append("| %s | %s | (no evidence yet) | | | | |" % (pid, p["title"]))
            continue
        ev = load(evp)
        cov = ev["coverage"]
        pa = [t for t in cov.get("trusted_base", []) if t.startswith("Print Assumptions")]
        closed = sum(1 for t in pa if "Closed under the global context" in t)
        rows.append("| %s | %s | %d/%d | %d closed of %d | %d (%s) | %s | %s |" % (
            pid, p["title"].replace("|", "/"), cov.get("discharged", 0), cov.get("obligations", 0), closed, len(pa),
            cov.get("evaluations", 0), ev["tier"], ev["wall_s"],
            ", ".join("%s×%d" % kv for kv in sorted(cov.get("known_findings_seen", {}).items())) or "—"))
    return "\n".join(rows)


def table_ties():
    rows = ["| id | tie by translation: functions regenerated from the source (status) | tie lemmas | other source-level ties recorded in the evidence |",
            "|---|---|---|---|"]
    for p in props():
        pid = p["id"]
        evp = os.path.join(HERE, "evidence", pid + ".json")
        if not os.path.exists(evp):
            continue
        cov = load(evp)["coverage"]
        tt = cov.get("translated_tie")
        if tt:
            fns = ", ".join("`%s`%s" % (k, "" if v == "translated" else " (" + str(v)[:40] + ")") for k, v in sorted(tt.get("functions", {}).items()))
            lem = "%s: %s" % (tt.get("lemmas", "Core/TranslatedTie.vo"), "checked" if tt.get("lemmas_check") is True else tt.get("lemmas_check"))
        else:
            fns, lem = "—", "—"
        other = []
        for k, v in sorted(cov.items()):
            if k == "translated_tie" or not any(w in k.lower() for w in ("tie", "script", "const")):
                continue
            txt = json.dumps(v, sort_keys=True) if not isinstance(v, str) else v
            other.append("%s: %s" % (k, txt[:160].replace("|", "/")))
        rows.append("| %s | %s | %s | %s |" % (pid, fns.replace("|", "/"), lem, "; ".join(other) or "—"))
    return "\n".join(rows)


def table_seeds():
    rows = ["| seeded change | property | what it needs to manifest (first line of its README) | tests still pass, demo fails | caught by |",
            "|---|---|---|---|---|"]
    for d in sorted(glob.glob(os.path.join(HERE, "seeded", "*"))):
        mp = os.path.join(d, "meta.json")
        if not os.path.exists(mp):
            continue
        m = load(mp)
        need = ""
        for line in m.get("needs_to_manifest", "").splitlines():
            line = line.strip(" #*-")
            if len(line) > 25:
                need = line[:160]
                break
        by = m.get("detected_by") or ("./check %s (quick): VIOLATION" % m["property"] if m.get("detected") else "**MISSED**")
        rows.append("| %s | %s | %s | confirmed | %s |" % (os.path.basename(d), m["property"], need.replace("|", "/"), by.replace("|", "/")))
    return "\n".join(rows)


def table_fixes():
    log = subprocess.run(["git", "-C", "/repo", "log", "--reverse", "--format=%h %s"], capture_output=True, text=True).stdout
    rows = ["| commit | subject |", "|---|---|"]
    for l in log.splitlines():
        h, s = l.split(" ", 1)
        if s.startswith("fix:"):
            rows.append("| %s | %s |" % (h, s))
    return "\n".join(rows)


def table_findings():
    kf = load(os.path.join(HERE, "known_findings.json"))
    d = os.path.join(HERE, "known_findings.json")
    entries = list(kf.get("findings", []))
    fixed = list(kf.get("fixed", []))
    if os.path.isdir(d):
        for f in sorted(os.listdir(d)):
            if f.endswith(".json"):
                part = load(os.path.join(d, f))
                entries += part.get("findings", [])
                fixed += part.get("fixed", [])
    rows = ["| id | property | matcher (over the case signature) | what fails |", "|---|---|---|---|"]
    for e in entries:
        rows.append("| %s | %s | `%s` | %s |" % (e["id"], e["property"], json.dumps(e["match"], sort_keys=True).replace("|", "/"), e["what"].replace("|", "/")))
    rows.append("")
    rows.append("Fixed entries (suppress nothing; their reproducers in corpus/defects.py run first in every check):")
    rows.append("")
    for f in sorted(set(fixed)):
        rows.append("* " + f)
    return "\n".join(rows)


def main():
    p = os.path.join(HERE, "DESIGN.md")
    s = open(p).read()
    for name, fn in (("CHECKS", table_checks), ("TIES", table_ties), ("SEEDS", table_seeds), ("FIXES", table_fixes), ("FINDINGS", table_findings)):
        b, e = "<!-- BEGIN GENERATED %s -->" % name, "<!-- END GENERATED %s -->" % name
        if b in s and e in s:
            i, j = s.index(b) + len(b), s.index(e)
            s = s[:i] + "\n" + fn() + "\n" + s[j:]
    open(p, "w").write(s)
    print("DESIGN.md tables regenerated")


if __name__ == "__main__":
    main()
