#!/bin/sh
# usage: benall.sh [jobs] [checks...]  - run every stored behaviour-preserving change (benign/*) through the quick tier
# of every check (or the listed ones) on a patched copy; every run must exit 0.  Prints one line per (change, check).
J="${1:-5}"; shift 2>/dev/null
CHECKS="${*:-C01 C02 C03 C04 C05 C06 C07 C08 C09 C10 C11 C12 C13 C14 C15 C16 C17 C18 C19 C20}"
OUT=$(mktemp -d /tmp/benall.XXXXXX)
for d in /verif/benign/${BEN_GLOB:-*}/; do for c in $CHECKS; do echo "$(basename $d) $c"; done; done | xargs -P "$J" -L 1 sh -c '
  s="$0"; c="$1"; OUT="'"$OUT"'"
  VERIF_JOBS=4 /verif/tools/seedtest.sh "$c" "/verif/benign/$s/patch.diff" > "$OUT/$s.$c.log" 2>&1; rc=$?
  po="-"; grep -q "PROOF OBLIGATION FAILED" "$OUT/$s.$c.log" && po="proof-obligation-failed"
  echo "$s $c exit=$rc $po"
' | tee "$OUT/summary.txt"
echo "logs in $OUT"
echo "ALARMS (must be none):"; grep -v "exit=0" "$OUT/summary.txt" || echo "  none"
