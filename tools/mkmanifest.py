#!/usr/bin/env python3
"""Writes MANIFEST.json from tools/claims.json (one place to edit)."""
import json, os
here = os.path.dirname(os.path.dirname(os.path.abspath(__file__)))
claims = json.load(open(os.path.join(here, "tools", "claims.json")))
cd = os.path.join(here, "tools", "claims.d")
if os.path.isdir(cd):
    for f in sorted(os.listdir(cd)):
        ready = set(open(os.path.join(here, "tools", "ready.txt")).read().split())
        if f.endswith(".json") and f[:-5] in ready:
            claims["claimed"][f[:-5]] = json.load(open(os.path.join(cd, f)))
props = [json.loads(l)["id"] for l in open(os.path.join(here, "properties.jsonl"))]
checks, na = [], []
for p in props:
    c = claims["claimed"].get(p)
    if c is None:
        na.append({"property_id": p, "reason": claims["not_claimed"].get(p, "check not built yet in this round; see DESIGN.md section 6 for the planned Coq model and theorems")})
        continue
    checks.append({
        "property_id": p,
        "quick_cmd": "./check %s --tier quick" % p,
        "thorough_cmd": "./check %s --tier thorough" % p,
        "evidence_file": "/verif/evidence/%s.json" % p,
        "replay_cmd_template": "./check %s --replay {path}" % p,
        "engine": "coq-model+correspondence",
        "level_claimed": {"category": "proof", "text": c["text"], "design_ref": c.get("design_ref", "DESIGN.md section 6 / " + p)},
        "level_note": c["note"],
        "technique": c["technique"],
    })
m = {
    "version": 1,
    "setup_cmd": "./check --setup",
    "hooks": {
        "guard": "ATTRS_VERIF",
        "enable": "no source hooks are needed: checks import /repo/src directly (PYTHONPATH) and observe through instrumented user callables; ATTRS_VERIF=1 is exported by ./check but read by nothing in /repo",
        "baseline_off_cmd": "python3 /verif/tools/baseline.py",
        "source_commits": [],
        "add_only": True,
    },
    "engines": [{
        "name": "coq-model+correspondence",
        "path": "/verif/coq (Coq 8.16.1 development: theories/<id>/Model.v, Proofs.v, Corr.v, Props/<id>.v) + /verif/harness (Python drivers)",
        "serves_properties": sorted(claims["claimed"]),
        "kind_free_text": "machine-checked proof in Coq about an executable Gallina model; model tied to /repo on every run by kernel-evaluated (vm_compute) differential correspondence on generated inputs and by constants/decision functions regenerated from the source",
    }],
    "checks": checks,
    "not_applicable": na,
    "notes": claims.get("notes", ""),
}
json.dump(m, open(os.path.join(here, "MANIFEST.json"), "w"), indent=1)
print("claimed:", [c["property_id"] for c in checks])
