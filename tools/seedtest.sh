#!/bin/sh
# usage: seedtest.sh <prop> <patch.diff> [check args]   - run ./check <prop> against a copy of /repo with the patch applied
# The run gets a private copy of the Coq development too (VERIF_COQ_DIR), so that the Gen/*.v files regenerated
# from the mutated source and the .vo files built from them never mix with /verif/coq or with another seedtest.
P="$1"; PATCH="$2"; shift 2
D=$(mktemp -d /tmp/mutrepo.XXXXXX)
cp -r /repo/src /repo/tests /repo/conftest.py /repo/pyproject.toml "$D"/ 2>/dev/null
( cd "$D" && patch -p1 -s < "$PATCH" ) || { echo "PATCH DID NOT APPLY"; rm -rf "$D"; exit 3; }
cp -a /verif/coq "$D/coq"; rm -rf "$D/coq/build"
VERIF_COQ_DIR="$D/coq" VERIF_EVIDENCE_DIR="$D/evidence" VERIF_REPLAY_DIR="$D/replays" ATTRS_REPO="$D" /verif/check "$P" "$@"; rc=$?
if [ -n "$SEEDTEST_KEEP" ]; then mkdir -p "$SEEDTEST_KEEP"; cp "$D"/evidence/*.json "$SEEDTEST_KEEP"/ 2>/dev/null; fi
rm -rf "$D"
echo "seedtest exit=$rc"
exit $rc
