#!/bin/sh
# usage: seedtest.sh <prop> <patch.diff> [check args]   - run ./check <prop> against a copy of /repo with the patch applied
P="$1"; PATCH="$2"; shift 2
D=$(mktemp -d /tmp/mutrepo.XXXXXX)
cp -r /repo/src /repo/tests /repo/conftest.py /repo/pyproject.toml "$D"/ 2>/dev/null
( cd "$D" && patch -p1 -s < "$PATCH" ) || { echo "PATCH DID NOT APPLY"; rm -rf "$D"; exit 3; }
VERIF_EVIDENCE_DIR="$D/evidence" ATTRS_REPO="$D" /verif/check "$P" "$@"; rc=$?
rm -rf "$D"
echo "seedtest exit=$rc"
exit $rc
