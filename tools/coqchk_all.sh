#!/bin/sh
# Independent re-check (coqchk -o) of EVERY compiled module of the development (models, proofs, ties, generated
# files, property files); prints the context summary.  Run ./check --setup first.
cd "$(dirname "$0")/../coq" || exit 2
mods=$(find theories -name "*.vo" | sed 's#^theories/#Attrs.#; s#\.vo$##; s#/#.#g' | tr '\n' ' ')
echo "modules: $(echo $mods | wc -w)"
timeout 3000 coqchk -silent -o -Q theories Attrs $mods 2>&1 | sed -n '/CONTEXT SUMMARY/,$p'
